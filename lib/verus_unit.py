#!/usr/bin/env python3
"""Assemble a Verus unit from a template + functions extracted verbatim from /repo, run Verus,
map every diagnostic to a named obligation.

Template format (contracts/verus/<unit>.rs): ordinary Verus source, plus directive blocks

    //@fn file=yarel/src/compiler.rs path=Compiler::patch_jump [ret=r] [props=C04,C06] [as=name]
    //@  rewrite R6 [R1 ...]
    //@  requires <expr>,            (one clause per line; lines may be continued with a trailing \\)
    //@  ensures <expr>,             -> obligation <unit>/<path>/post#k
    //@  loop <n> iter <ident>       -> `for x in <ident>: expr`
    //@  loop <n> invariant <expr>,  -> obligation <unit>/<path>/inv<n>#k
    //@  loop <n> decreases <expr>
    //@  at body.start|loop<n>.start|loop<n>.end|body.end <text>
    //@  before "<statement text>" <text>      (anchored on normalised statement text)
    //@  attr <text>                           (e.g. #[verifier::loop_isolation(false)])
    //@end

    //@struct file=... name=Local [map "A" => "B"]...   (fields copied from the real item)
    //@enum   file=... name=X
    //@const  file=... name=LOCALS_MAX

Everything that is not a directive is contract material written by us (prelude stand-ins,
spec functions, lemmas) and is listed as such in the evidence.
"""
import json
import os
import re
import subprocess
import sys
import time
import hashlib

sys.path.insert(0, os.path.dirname(os.path.abspath(__file__)))
import rsx
from rsx import ExtractError
import rewrite as rw

REPO = os.environ.get('VERIF_REPO', '/repo')


class Obligation:
    def __init__(self, name, kind, props, fn, text=''):
        self.name = name
        self.kind = kind      # post | inv | body | lemma | canary
        self.props = props
        self.fn = fn
        self.text = text
        self.lines = []       # assembled-file line numbers that belong to this clause
        self.status = None    # discharged | refuted | undecided
        self.detail = ''


class Assembled:
    def __init__(self):
        self.text = ''
        self.obligations = []
        self.functions = []       # dicts: name,file,line,sha256,props
        self.fn_ranges = []       # (first_line, last_line, fnname, body_obligation)
        self.rewrites = []        # (rule, fn, count)
        self.assumptions = []
        self.dropped = []


def _parse_kv(s):
    out = {}
    for m in re.finditer(r'(\w+)=("([^"]*)"|\S+)', s):
        out[m.group(1)] = m.group(3) if m.group(3) is not None else m.group(2)
    return out


_sources = {}


def get_source(rel):
    p = os.path.join(REPO, rel)
    if p not in _sources:
        if not os.path.exists(p):
            raise ExtractError("anchor lost: file %s does not exist" % rel)
        _sources[p] = rsx.Source(p)
    return _sources[p]


def reset_sources():
    _sources.clear()


def _norm(s):
    return ' '.join(s.split())


def assemble(template_path, unit, default_props, skip_fns=None):
    skip_fns = skip_fns or {}
    tpl = open(template_path).read().split('\n')
    for l in tpl:
        if l.strip().startswith('//@property '):
            default_props = [x for part in l.strip().split()[1:] for x in part.split(',') if x]
    asm = Assembled()
    asm.template_text = '\n'.join(tpl)
    out = []   # list of lines

    def cur_line():
        return len(out) + 1

    i = 0
    while i < len(tpl):
        ln = tpl[i]
        s = ln.strip()
        if s.startswith('//@fn '):
            block = []
            i += 1
            while i < len(tpl) and tpl[i].strip() != '//@end':
                t = tpl[i].strip()
                if not t.startswith('//@'):
                    raise ExtractError("template %s: line %d inside //@fn block is not a directive" % (template_path, i + 1))
                t = t[3:].strip()
                while t.endswith('\\') and i + 1 < len(tpl):
                    i += 1
                    t = t[:-1] + ' ' + tpl[i].strip()[3:].strip()
                block.append(t)
                i += 1
            i += 1  # skip //@end
            kvf = _parse_kv(s[6:])
            key = kvf.get('obname', kvf['path'])
            if key in skip_fns:
                _emit_fn_stub(asm, out, unit, kvf, block, default_props, skip_fns[key])
            else:
                mark = len(out)
                nob = len(asm.obligations)
                try:
                    _emit_fn(asm, out, unit, kvf, block, default_props)
                except ExtractError as e:
                    del out[mark:]
                    del asm.obligations[nob:]
                    asm.fn_ranges = [r for r in asm.fn_ranges if r[0] <= mark]
                    _emit_fn_stub(asm, out, unit, kvf, block, default_props, 'extraction: %s' % e)
            continue
        if s.startswith('//@struct ') or s.startswith('//@enum '):
            kind = 'struct' if s.startswith('//@struct ') else 'enum'
            kv = _parse_kv(s.split(' ', 1)[1])
            maps = re.findall(r'map\s+"([^"]*)"\s*=>\s*"([^"]*)"', s)
            drops = re.findall(r'dropfield\s+(\w+)', s)
            adds = re.findall(r'addfield\s+"([^"]*)"', s)
            _emit_type(asm, out, kind, kv, maps, drops, adds)
            i += 1
            continue
        if s.startswith('//@trace '):
            block = []
            i += 1
            while i < len(tpl) and tpl[i].strip() != '//@end':
                block.append(tpl[i].strip()[3:].strip())
                i += 1
            i += 1
            _emit_trace(asm, out, unit, s, block, default_props, skip_fns)
            continue
        if s.startswith('//@reflect_helpers '):
            kv = _parse_kv(s.split(' ', 1)[1])
            out.append('//@@REFLECT %s %s' % (kv['file'], kv.get('prefix', 'utils::')))
            i += 1
            continue
        if s.startswith('//@const '):
            kv = _parse_kv(s[9:])
            src = get_source(kv['file'])
            it = src.find(kv['name'], kind='const')
            txt = src.text_of(it)
            m = re.search(r'const\s+\w+\s*:\s*([^=]+)=\s*(.*);', _code_only(txt), re.S)
            if not m:
                raise ExtractError("cannot parse const %s" % kv['name'])
            ty = m.group(1).strip()
            val = _norm(m.group(2))
            val = val.replace('common::', '')
            out.append('pub const %s: %s = %s;  // extracted %s:%d' % (kv['name'].split('::')[-1], ty, val, kv['file'], src.line_of(it.start)))
            asm.functions.append({'name': 'const ' + kv['name'], 'file': kv['file'], 'line': src.line_of(it.start),
                                  'sha256': hashlib.sha256(txt.encode()).hexdigest(), 'props': default_props})
            i += 1
            continue
        if s.startswith('//@yl_classes '):
            # `//@yl_classes file=yarel/src/core.yl fn=core_class_names`: the names of the top-level classes the core library
            # (written in yarel) defines in `main`, read from its text on this run, as a spec sequence of names
            kv = _parse_kv(s[14:])
            pth = os.path.join(REPO, kv['file'])
            if not os.path.exists(pth):
                raise ExtractError("anchor lost: file %s does not exist" % kv['file'])
            txt_ = open(pth).read()
            names_ = re.findall(r'^class\s+(\w+)', txt_, re.M)
            if not names_:
                raise ExtractError("anchor lost: no top-level class in %s" % kv['file'])
            out.append('pub open spec fn %s() -> Seq<Seq<char>> { seq![%s] }  // top-level classes of %s' % (kv['fn'], ', '.join('"%s"@' % n for n in names_), kv['file']))
            asm.functions.append({'name': 'class list of ' + kv['file'], 'file': kv['file'], 'line': 1,
                                  'sha256': hashlib.sha256(txt_.encode()).hexdigest(), 'props': default_props})
            i += 1
            continue
        if s.startswith('//@rules '):
            # `//@rules file=… name=RULES enum_file=… enum=TokenKind`: the Pratt table `const RULES: [ParseRule; N]` is indexed by
            # `kind as usize`; row i therefore belongs to the i-th variant of the fieldless enum (declaration order = discriminant,
            # Rust reference). Generated from the real const on every run: spec functions token kind -> precedence / handler names.
            kv = _parse_kv(s[9:])
            src = get_source(kv['file'])
            it = src.find(kv['name'], kind='const')
            txt = src.text_of(it)
            code = _code_only(txt)
            rows = re.findall(r'ParseRule\s*\{\s*prefix\s*:\s*(None|Some\(\s*Parser::(\w+)\s*\))\s*,\s*infix\s*:\s*(None|Some\(\s*Parser::(\w+)\s*\))\s*,\s*precedence\s*:\s*Precedence::(\w+)\s*,?\s*\}', code)
            nrows_decl = re.search(r'\[\s*ParseRule\s*;\s*(\d+)\s*\]', code)
            if not rows or not nrows_decl or int(nrows_decl.group(1)) != len(rows):
                raise ExtractError("cannot parse the rows of const %s (%d rows parsed, declared %s)" % (kv['name'], len(rows), nrows_decl.group(1) if nrows_decl else '?'))
            esrc = get_source(kv['enum_file'])
            eit = esrc.find(kv['enum'], kind='enum')
            ecode = _code_only(esrc.text_of(eit))
            ebody = re.sub(r'#\[[^\]]*\]', '', ecode[ecode.index('enum'):])
            vs = _variants_of(ebody)
            if any(t for _, t in vs) or '=' in ebody[ebody.index('{'):]:
                raise ExtractError("enum %s: the rule table needs a fieldless enum without explicit discriminants" % kv['enum'])
            names = sorted(set([r[1] for r in rows if r[1]] + [r[3] for r in rows if r[3]]))
            en = kv['enum']
            out.append('// generated from %s:%d (const %s, %d rows) and %s:%d (enum %s, %d variants); row i <-> i-th variant'
                       % (kv['file'], src.line_of(it.start), kv['name'], len(rows), kv['enum_file'], esrc.line_of(eit.start), en, len(vs)))
            out.append('#[allow(non_camel_case_types)]')
            out.append('#[derive(Clone, Copy)]')
            out.append('pub enum ParseFnName { %s }' % ', '.join(names))
            out.append('pub spec const RULE_ROWS: int = %d;' % len(rows))
            out.append('pub spec const TOKEN_KINDS: int = %d;' % len(vs))
            n = min(len(rows), len(vs))
            def arms(f):
                a = ' '.join('%s::%s => %s,' % (en, vs[i][0], f(rows[i])) for i in range(n))
                if len(vs) > n:
                    a += ' _ => arbitrary(),'
                return a
            out.append('pub open spec fn rule_precedence(k: %s) -> Precedence { match k { %s } }' % (en, arms(lambda r: 'Precedence::' + r[4])))
            out.append('pub open spec fn rule_prefix(k: %s) -> Option<ParseFnName> { match k { %s } }' % (en, arms(lambda r: 'Some(ParseFnName::%s)' % r[1] if r[1] else 'None')))
            out.append('pub open spec fn rule_infix(k: %s) -> Option<ParseFnName> { match k { %s } }' % (en, arms(lambda r: 'Some(ParseFnName::%s)' % r[3] if r[3] else 'None')))
            asm.functions.append({'name': 'const ' + kv['name'], 'file': kv['file'], 'line': src.line_of(it.start),
                                  'sha256': hashlib.sha256(txt.encode()).hexdigest(), 'props': default_props})
            asm.dropped.append('const %s: the function pointers of the rows are kept as names only (ParseFnName); the table becomes three spec functions over %s' % (kv['name'], en))
            i += 1
            continue
        if s.startswith('//@binop '):
            # `//@binop Subtract => Value::Number(a - b)`: what the numeric operator's closure computes (the language's definition)
            mb_ = re.match(r'//@binop\s+(\w+)\s*=>\s*(.*)$', s)
            if not mb_:
                raise ExtractError("bad //@binop line: %s" % s)
            if not hasattr(asm, '_binops'):
                asm._binops = {}
            asm._binops[mb_.group(1)] = mb_.group(2).strip()
            out.append('// ' + s[3:])
            i += 1
            continue
        if s.startswith('//@dispatch '):
            # `//@dispatch file=… fn=Vm::run enum_file=… enum=OpCode`: which variants of the opcode enum have an arm
            # `byte if byte == OpCode::V as u8 =>` in the interpreter loop. Generated from the real function on every run.
            kv = _parse_kv(s[12:])
            src = get_source(kv['file'])
            it = src.find(kv['fn'], kind='fn')
            ft = rsx.FnText(src, it)
            code = _code_only(ft.body)
            en = kv['enum']
            armed = set(re.findall(r'\b\w+\s+if\s+\w+\s*==\s*%s::(\w+)\s+as\s+u8\s*=>' % re.escape(en), code))
            esrc = get_source(kv['enum_file'])
            eit = esrc.find(en, kind='enum')
            ecode = _code_only(esrc.text_of(eit))
            ebody = re.sub(r'#\[[^\]]*\]', '', ecode[ecode.index('enum'):])
            vs = [v for v, _ in _variants_of(ebody)]
            if not armed:
                raise ExtractError("no dispatch arms `x if x == %s::V as u8 =>` found in %s" % (en, kv['fn']))
            out.append('// generated from %s:%d (%s, %d dispatch arms) and %s:%d (enum %s, %d variants)'
                       % (kv['file'], ft.line, kv['fn'], len(armed), kv['enum_file'], esrc.line_of(eit.start), en, len(vs)))
            out.append('pub open spec fn dispatched(op: %s) -> bool { match op { %s } }'
                       % (en, ' '.join('%s::%s => %s,' % (en, v, 'true' if v in armed else 'false') for v in vs)))
            out.append('pub spec const DISPATCH_ARMS: int = %d;' % len(armed))
            out.append('pub spec const ARMS_NAMING_NO_VARIANT: int = %d;' % len([a for a in armed if a not in vs]))
            # which handler each arm calls: `OpCode::V` -> `self.<snake(V)>_impl(…)` (aliases / inline arms / numeric
            # operators are declared on the directive); numeric operators: the closure handed to binary_op_impl,
            # compared (whitespace-insensitively) with the definition given by `//@binop V => <closure body>` lines
            if kv.get('handlers'):
                arms_ = [(m_.group(1), m_.end()) for m_ in re.finditer(r'\b\w+\s+if\s+\w+\s*==\s*%s::(\w+)\s+as\s+u8\s*=>' % re.escape(en), code)]
                alias_ = dict(x.split(':') for x in kv.get('alias', '').split(',') if x)
                inline_ = set(x for x in kv.get('inline', '').split(',') if x)
                binops_ = getattr(asm, '_binops', {})
                wrong_, wrong_ops_ = [], []
                def snake_(v_):
                    return re.sub(r'(?<!^)(?=[A-Z])', '_', v_).lower()
                for k_, (v_, st_) in enumerate(arms_):
                    en_ = arms_[k_ + 1][1] if k_ + 1 < len(arms_) else len(code)
                    arm_ = code[st_:en_]
                    if k_ + 1 < len(arms_):
                        arm_ = arm_[:arm_.rfind('\n')] if '\n' in arm_ else arm_
                    calls_ = re.findall(r'\bself\s*\.\s*(\w+)\s*\(', arm_)
                    if v_ in inline_:
                        continue
                    if v_ in binops_:
                        want_ = 'binary_op_impl'
                        mcl_ = re.search(r'binary_op_impl\s*\(\s*\|\s*a\s*,\s*b\s*\|', arm_)
                        body_ = None
                        if mcl_:
                            op_ = arm_.index('(', mcl_.start())
                            cl_ = rsx.match_close(arm_, rsx.code_mask(arm_), op_, '(', ')')
                            body_ = arm_[mcl_.end():cl_].strip()
                            if body_.startswith('{') and body_.endswith('}'):
                                body_ = body_[1:-1]
                        if body_ is None or _norm(body_).replace(' ', '') != _norm(binops_[v_]).replace(' ', ''):
                            wrong_ops_.append(v_)
                    else:
                        want_ = alias_.get(v_, snake_(v_) + '_impl')
                    if not calls_ or calls_[0] != want_:
                        wrong_.append('%s->%s' % (v_, calls_[0] if calls_ else '?'))
                out.append('pub spec const ARMS_CALLING_ANOTHER_HANDLER: int = %d;  // %s' % (len(wrong_), ', '.join(wrong_) or 'none'))
                out.append('pub spec const OPERATOR_ARMS_WITH_ANOTHER_DEFINITION: int = %d;  // %s' % (len(wrong_ops_), ', '.join(wrong_ops_) or 'none'))
            asm.functions.append({'name': '%s (dispatch arms)' % kv['fn'], 'file': kv['file'], 'line': ft.line, 'sha256': ft.sha, 'props': default_props})
            asm.dropped.append('%s: only the guards of its `match byte` arms are read (which opcode each arm handles); the handlers are separate functions' % kv['fn'])
            i += 1
            continue
        if s.startswith('//@callsites '):
            # `//@callsites file=… impl=Parser callee=statement allowed=declaration,if_statement`: which functions of the impl
            # call `self.<callee>(` / `s.<callee>(`. Generated from the source on every run (a syntactic frame condition).
            kv = _parse_kv(s[13:])
            callee = kv.get('callee') or kv['name']
            allowed = set(kv['allowed'].split(','))
            callers = set()
            call_pat = (kv['pattern'] if kv.get('pattern') else r'\b(?:self|s)\s*\.\s*%s\s*\(' % re.escape(callee))
            # `file` may be a comma-separated list; `impl=*` means every function of those files (free functions too)
            for frel in kv['file'].split(','):
                src = get_source(frel)
                for itf in src.find_all(lambda c: c.kind == 'fn'):
                    par = itf.parent
                    if kv['impl'] != '*' and (par is None or par.kind != 'impl' or par.name != kv['impl']):
                        continue
                    body = _code_only(src.text_of(itf))
                    if re.search(call_pat, body) and itf.name != callee:
                        qual_ = ('%s::%s' % (par.name, itf.name)) if (par is not None and par.kind == 'impl') else itf.name
                        # an `allowed` entry with `::` names a function of a particular impl; a bare entry any function of that name
                        callers.add(qual_ if (qual_ in allowed or itf.name not in allowed) else itf.name)
            unexpected = sorted(callers - allowed)
            out.append('// generated from %s: callers of %s::%s = {%s}; allowed = {%s}' % (kv['file'], kv['impl'], callee, ', '.join(sorted(callers)), ', '.join(sorted(allowed))))
            out.append('pub spec const UNEXPECTED_CALLERS_OF_%s: int = %d;%s' % (callee.upper(), len(unexpected), ('  // ' + ', '.join(unexpected)) if unexpected else ''))
            asm.dropped.append('%s: call sites of %s::%s are found by text (`self.%s(` / `s.%s(`); calls through aliases or macros would not be seen' % (kv['file'], kv['impl'], callee, callee, callee))
            i += 1
            continue
        if s.startswith('//@debugasserts '):
            # `//@debugasserts dir=yarel/src`: every `debug_assert!/debug_assert_eq!/debug_assert_ne!` of the crate. The argument is
            # evaluated in the checked configuration only, so it must be free of side effects (C10). Decided syntactically:
            # no call of a known mutator, no assignment, no `&mut`.
            kv = _parse_kv(s[16:])
            import glob as _glob
            base = os.path.join(REPO, kv['dir'])
            impure = []
            total = 0
            for fp in sorted(_glob.glob(os.path.join(base, '**', '*.rs'), recursive=True)):
                txt_ = open(fp).read()
                mask_ = rsx.code_mask(txt_)
                for m_ in re.finditer(r'\bdebug_assert(?:_eq|_ne)?!\s*\(', txt_):
                    if not mask_[m_.start()]:
                        continue
                    total += 1
                    op_ = m_.end() - 1
                    cl_ = rsx.match_close(txt_, mask_, op_, '(', ')')
                    arg_ = _code_only(txt_[op_ + 1:cl_])
                    if re.search(r'\.\s*(remove|insert|push|pop|take|replace|clear|truncate|drain|retain|borrow_mut|set|swap|extend|append|entry|get_mut|last_mut|as_mut|advance|next)\s*\(|&mut\b|[^=!<>]=[^=]|\+=|-=', arg_):
                        impure.append('%s:%d' % (os.path.relpath(fp, REPO), txt_[:m_.start()].count('\n') + 1))
            out.append('// generated from %s: %d debug assertion(s), %d with an argument that is not side-effect free%s'
                       % (kv['dir'], total, len(impure), (': ' + ', '.join(impure)) if impure else ''))
            out.append('pub spec const DEBUG_ASSERTS_WITH_SIDE_EFFECTS: int = %d;' % len(impure))
            asm.dropped.append('debug assertions of %s: purity of the argument is decided by text (known mutating methods, assignments, `&mut`)' % kv['dir'])
            i += 1
            continue
        if s.startswith('//@lemma '):
            # names an obligation for a hand-written proof fn / verified spec that follows
            kv = _parse_kv(s[9:])
            ob = Obligation('%s/%s' % (unit, kv['name']), 'lemma', kv.get('props', ','.join(default_props)).split(','), kv['name'])
            ob.fnkey = kv['name']
            asm.obligations.append(ob)
            i += 1
            continue
        if s.startswith('//@'):
            # other directives (unit, property, doc) are metadata
            i += 1
            continue
        out.append(ln)
        i += 1
    _expand_reflected_helpers(asm, out)
    if getattr(asm, '_late_consts', None):
        at_ = max((k_ for k_, l_ in enumerate(out) if isinstance(l_, str) and l_.strip().startswith('} // verus!')), default=None)
        if at_ is not None:
            for c_ in asm._late_consts:
                out.insert(at_, c_)
    asm.text = '\n'.join(out) + '\n'
    # assumptions scan
    for n, l in enumerate(out, 1):
        for kw in ('external_body', 'assume_specification', 'assume(', 'admit(', 'uninterp spec', 'broadcast axiom',
                   'axiom fn', '#[verifier::external', 'accept_recursive_types', 'verifier::truncate'):
            if kw in l and not l.strip().startswith('//'):
                asm.assumptions.append('%s line %d: %s' % (unit, n, _norm(l)[:160]))
                break
    return asm


PURE_OK = re.compile(r'^[\w\s(){}\[\],;:.<>=!+\-*/%|&_\'#]*$')


def _expand_reflected_helpers(asm, out):
    """`//@reflect_helpers file=… prefix=utils::` — small PURE helper functions that extracted bodies call but the
    template does not define (typically introduced by a refactor) are copied from the repo twice: as a spec fn with the
    same body, and as an exec fn with `ensures r == spec(args)`. Only comparison / linear-arithmetic / match bodies are
    reflected (no loops, no bit operations, no calls): anything else stays undefined, so the calling function becomes
    undecided instead of being judged on a spec the solver cannot reason about."""
    for k, line in enumerate(list(out)):
        if not line.startswith('//@@REFLECT '):
            continue
        _, rel, prefix = line.split()
        text = '\n'.join(out)
        used = set(re.findall(re.escape(prefix) + r'(\w+)\s*\(', text))
        defined = set(re.findall(r'\bfn\s+(\w+)', text))
        gen = []
        try:
            src = get_source(rel)
        except ExtractError:
            out[k] = '// (helper reflection: %s not found)' % rel
            continue
        for name in sorted(used - defined):
            try:
                it = src.find(name, kind='fn')
                ft = rsx.FnText(src, it)
            except ExtractError:
                continue
            body = _code_only(ft.body)
            sig = ' '.join(ft.sig.split())
            m = re.match(r'fn\s+(\w+)\s*\((.*)\)\s*->\s*(.+)$', sig)
            if not m or '&' in m.group(2) or 'mut' in m.group(2):
                continue
            if re.search(r'\b(while|for|loop|let\s+mut|unsafe|as_|\w+!)\b', body) or re.search(r'>>|<<|\^|&|\|(?!\|)', body.replace('||', '')):
                asm.dropped.append('helper %s%s not reflected (not a comparison/linear-arithmetic body)' % (prefix, name))
                continue
            if re.search(r'\.\w+\s*\(', body) or re.search(r'\b(?!if\b|match\b|else\b|return\b)[a-z_]\w*\s*\(', body):
                asm.dropped.append('helper %s%s not reflected (calls other functions)' % (prefix, name))
                continue
            args, ret = m.group(2), m.group(3).strip()
            argnames = ', '.join(a.split(':')[0].strip() for a in args.split(',') if a.strip())
            first = len(out) + len(gen) + 1
            gen.append('    // ---- reflected verbatim from %s:%d (pure helper %s) sha256=%s' % (rel, ft.line, name, ft.sha[:16]))
            gen.append('    pub open spec fn %s_spec(%s) -> %s %s' % (name, args, ret, body))
            gen.append('    pub fn %s(%s) -> (r: %s) ensures r == %s_spec(%s) %s' % (name, args, ret, name, argnames, body))
            asm.functions.append({'name': '%s%s (reflected pure helper)' % (prefix, name), 'file': rel, 'line': ft.line, 'sha256': ft.sha, 'props': []})
            asm.rewrites.append(('reflect', '%s%s' % (prefix, name), 1))
        repl = ('\n'.join(gen)).split('\n') if gen else ['    // (no helper to reflect)']
        out[k:k + 1] = repl
        shift = len(repl) - 1
        if shift:
            # line numbers recorded so far refer to the file before the expansion
            for o in asm.obligations:
                o.lines = [l + shift if l > k + 1 else l for l in o.lines]
            asm.fn_ranges = [((a + shift if a > k + 1 else a), (b + shift if b > k + 1 else b), f, ob) for (a, b, f, ob) in asm.fn_ranges]
        return   # one directive per unit


def _code_only(txt):
    m = rsx.code_mask(txt)
    return ''.join(c if m[k] or c == '\n' else ' ' for k, c in enumerate(txt))


def _emit_type(asm, out, kind, kv, maps, drops, adds=()):
    src = get_source(kv['file'])
    it = src.find(kv['name'], kind=kind)
    txt = src.text_of(it)
    code = _code_only(txt)
    # drop attributes (derive etc.) and doc comments; keep the item itself
    kwpos = re.search(r'\b(pub(\([^)]*\))?\s+)?%s\b' % kind, code)
    derives = []
    for dm in re.finditer(r'#\[derive\(([^)]*)\)\]', code[:kwpos.start()]):
        derives += [d.strip() for d in dm.group(1).split(',') if d.strip()]
    keep = [d for d in derives if (d in ('Clone', 'Copy') and ('Copy' in derives or kv.get('clone'))) or (d in ('PartialEq', 'Eq') and kv.get('eq'))]
    dropped_derives = [d for d in derives if d not in keep]
    body = code[kwpos.start():]
    body = re.sub(r'#\[[^\]]*\]', '', body)
    if kind == 'enum' and kv.get('keep'):
        keep_v = kv['keep'].split(',')
        vs = _variants_of(body)
        names = [v for v, _ in vs]
        for kname in keep_v:
            if kname not in names:
                raise ExtractError("enum %s no longer has variant %s" % (kv['name'], kname))
        kept = ['    %s%s,' % (v, '(%s)' % t if t else '') for v, t in vs if v in keep_v]
        head = body[:body.index('{') + 1]
        body = head + '\n' + '\n'.join(kept) + '\n    %s,\n}' % kv.get('other', 'Other')
        asm.dropped.append('%s: %d variants not named by the extracted bodies collapsed into `%s`: %s'
                           % (kv['name'], len(vs) - len(kept), kv.get('other', 'Other'), ', '.join(v for v in names if v not in keep_v)))
    if kind == 'struct' and kv.get('keepfields'):
        keepf = kv['keepfields'].split(',')
        fs = _fields_of(body)
        names = [f for f, _ in fs]
        for f in keepf:
            if f not in names:
                raise ExtractError("struct %s no longer has field %s" % (kv['name'], f))
        head = body[:body.index('{') + 1]
        body = head + '\n' + '\n'.join('    %s: %s,' % (f, t) for f, t in fs if f in keepf) + '\n}'
        asm.dropped.append('%s: fields not named by the extracted bodies dropped: %s' % (kv['name'], ', '.join(f for f in names if f not in keepf)))
    for f in drops:
        body, n = re.subn(r'\n[^\n]*\b%s\s*:[^\n]*,' % re.escape(f), '', body)
        if n != 1:
            raise ExtractError("dropfield %s: not found in %s" % (f, kv['name']))
        asm.dropped.append('%s.%s field dropped (not touched by extracted bodies)' % (kv['name'], f))
    for a, b in maps:
        if a not in body:
            raise ExtractError("type map %r no longer matches in %s %s" % (a, kind, kv['name']))
        body = body.replace(a, b)
        asm.dropped.append('%s: field type %s mapped to stand-in %s' % (kv['name'], a, b))
    body = re.sub(r'pub\((crate|super)\)', 'pub', body)
    if kind == 'struct' and kv.get('pubfields', '1') == '1':
        # field visibility is irrelevant to the verified text (one module); make fields visible to specifications
        body = re.sub(r'(\n\s*)(?:pub\s+)?(\w+\s*:)', r'\1pub \2', body)
        body = re.sub(r'^(pub\s+)?struct', 'pub struct', body)
    if kind == 'enum':
        body = re.sub(r'^(pub\s+)?enum', 'pub enum', body)
    for f in adds:
        k = body.rstrip().rfind('}')
        body = body[:k] + '    %s,  // ghost field added by the contract (specification state, erased)\n' % f + body[k:]
        asm.dropped.append('%s: ghost field `%s` added' % (kv['name'], f))
    body = '\n'.join(l for l in body.split('\n') if l.strip())
    discr_fn = None
    if kind == 'enum' and kv.get('discr'):
        # the discriminants of a fieldless enum without explicit values are 0, 1, 2, ... in declaration order (Rust reference)
        vs = _variants_of(body)
        if any(t for _, t in vs) or '=' in body[body.index('{'):]:
            raise ExtractError("enum %s: discr= needs a fieldless enum without explicit discriminants" % kv['name'])
        arms = ' '.join('%s::%s => %du8,' % (kv['name'], v, i) for i, (v, _) in enumerate(vs))
        discr_fn = 'pub open spec fn %s(x: %s) -> u8 { match x { %s } }  // generated from the declaration order at %s' % (kv['discr'], kv['name'], arms, kv['file'])
    pre = kv.get('attrs', '')
    if pre:
        out.append(pre)
    if keep:
        # Verus allows `==` in executable code on types that are PartialEq + Eq + Structural
        if kv.get('eq') and 'PartialEq' in keep and 'Eq' not in keep:
            keep = keep + ['Eq']   # the stand-in may be stricter than the original (needed for Verus' executable `==`)
        out.append('#[derive(%s)]' % ', '.join(keep + (['Structural'] if 'Eq' in keep and 'PartialEq' in keep else [])))
    if dropped_derives:
        asm.dropped.append('%s: derive(%s) dropped' % (kv['name'], ', '.join(dropped_derives)))
    out.append('// extracted %s:%d (comments dropped; derives kept: %s)' % (kv['file'], src.line_of(it.start), ', '.join(keep) or 'none'))
    out.extend(body.split('\n'))
    if discr_fn:
        out.append(discr_fn)
    asm.functions.append({'name': '%s %s' % (kind, kv['name']), 'file': kv['file'], 'line': src.line_of(it.start),
                          'sha256': hashlib.sha256(txt.encode()).hexdigest(), 'props': []})



def filter_match_arms(body, enum, keep):
    """Drop, from every `match` in `body`, the arms whose pattern names a variant `<enum>::V` with V not in `keep`.
    Arms are split at statement level of the match block: `pat => { .. }` ends at the matching brace (plus an optional
    comma), `pat => expr,` at the next comma outside brackets. Returns (new_body, names_of_dropped_variants, n_dropped)."""
    mask = rsx.code_mask(body)
    out = []
    i = 0
    dropped = []
    ndrop = 0
    n = len(body)

    def match_close(k):
        depth = 0
        while k < n:
            if mask[k]:
                if body[k] in '([{':
                    depth += 1
                elif body[k] in ')]}':
                    depth -= 1
                    if depth == 0:
                        return k
            k += 1
        return -1

    pos = 0
    res = body
    # process matches from the last to the first so that offsets stay valid
    starts = [m.start() for m in re.finditer(r'\bmatch\b', body) if mask[m.start()]]
    for ms in reversed(starts):
        mask = rsx.code_mask(res)
        n = len(res)
        body = res
        # the block of the match: the first `{` at bracket depth 0 after the scrutinee
        k = ms + 5
        depth = 0
        while k < n:
            if mask[k]:
                if body[k] in '([':
                    depth += 1
                elif body[k] in ')]':
                    depth -= 1
                elif body[k] == '{' and depth == 0:
                    break
            k += 1
        if k >= n:
            continue
        end = match_close(k)
        if end < 0:
            continue
        inner_start = k + 1
        arms = []
        a = inner_start
        while a < end:
            # skip whitespace
            while a < end and body[a].isspace():
                a += 1
            if a >= end:
                break
            # find `=>` at depth 0
            j = a
            depth = 0
            while j < end:
                if mask[j]:
                    if body[j] in '([{':
                        depth += 1
                    elif body[j] in ')]}':
                        depth -= 1
                    elif depth == 0 and body.startswith('=>', j):
                        break
                j += 1
            if j >= end:
                break
            e = j + 2
            while e < end and body[e].isspace():
                e += 1
            if e < end and body[e] == '{':
                ce = match_close(e)
                e = ce + 1
                t = e
                while t < end and body[t].isspace():
                    t += 1
                if t < end and body[t] == ',':
                    e = t + 1
            else:
                depth = 0
                while e < end:
                    if mask[e]:
                        if body[e] in '([{':
                            depth += 1
                        elif body[e] in ')]}':
                            depth -= 1
                        elif body[e] == ',' and depth == 0:
                            e += 1
                            break
                    e += 1
            arms.append((a, e, body[a:j]))
            a = e
        pieces = []
        last = inner_start
        for (a0, e0, pat) in arms:
            vs = re.findall(r'\b%s::(\w+)' % re.escape(enum), pat)
            bad = [v for v in vs if v not in keep]
            if bad:
                pieces.append(body[last:a0])
                last = e0
                dropped += bad
                ndrop += 1
        pieces.append(body[last:])
        res = body[:inner_start] + ''.join(pieces)[0:] if False else body[:inner_start] + ''.join(pieces)
    return res, sorted(set(dropped)), ndrop


MANAGED_PAT = re.compile(r'\bGc\s*<|\bValue\b|\bCallFrame\b|\bObjUpvalueState\b')


def _fields_of(code_body):
    """fields of a struct body text `{ a: T, pub b: U, }` -> [(name, type)]"""
    inner = code_body[code_body.index('{') + 1:code_body.rindex('}')]
    out = []
    for part in rw._split_top(inner.replace('<', '(').replace('>', ')')):
        pass
    # split on top-level commas respecting <> nesting
    depth = 0
    cur = ''
    parts = []
    for ch in inner:
        if ch in '<([{':
            depth += 1
        elif ch in '>)]}':
            depth -= 1
        if ch == ',' and depth == 0:
            parts.append(cur)
            cur = ''
        else:
            cur += ch
    parts.append(cur)
    for p_ in parts:
        p_ = p_.strip()
        if not p_:
            continue
        m = re.match(r'(?:pub(?:\([^)]*\))?\s+)?(\w+)\s*:\s*(.+)$', p_, re.S)
        if m:
            out.append((m.group(1), ' '.join(m.group(2).split())))
    return out


def _variants_of(code_body):
    inner = code_body[code_body.index('{') + 1:code_body.rindex('}')]
    depth = 0
    cur = ''
    parts = []
    for ch in inner:
        if ch in '<([{':
            depth += 1
        elif ch in '>)]}':
            depth -= 1
        if ch == ',' and depth == 0:
            parts.append(cur)
            cur = ''
        else:
            cur += ch
    parts.append(cur)
    out = []
    for p_ in parts:
        p_ = p_.strip()
        if not p_:
            continue
        m = re.match(r'(\w+)\s*(?:\((.*)\))?$', p_, re.S)
        if m:
            out.append((m.group(1), ' '.join((m.group(2) or '').split())))
    return out


def _member_req(name, ty, specs, mode):
    if name in specs:
        return specs[name].replace('{m}', mode)
    if ty.startswith('Option<'):
        return 'opt_%s(self.%s)' % (mode, name)
    return 'self.%s.%s()' % (name, mode)


def _emit_trace(asm, out, unit, header, block, default_props, skip_fns=None):
    skip_fns = skip_fns or {}
    """//@trace file=… type=T kind=struct|enum [impl="GcManaged for T"] [noemit=1]
         exempt <field> <reason…>          (an explicit, reviewed exemption: listed as an assumption)
         spec <field> <expr with {m}>      (override of the generated per-field requirement)
         map "A" => "B"                    (field type stand-in)
       Generates traced()/shaded() from the REAL item's field list and extracts mark/blacken verbatim."""
    kv = _parse_kv(header.split(' ', 1)[1])
    src = get_source(kv['file'])
    tname = kv['type']
    kind = kv.get('kind', 'struct')
    it = src.find(tname, kind=kind)
    code = _code_only(src.text_of(it))
    exempt = {}
    specs = {}
    maps = []
    rewrites = []
    extra = []
    also = []
    for t in block:
        if t.startswith('exempt '):
            parts = t.split(None, 2)
            exempt[parts[1]] = parts[2] if len(parts) > 2 else 'no reason given'
        elif t.startswith('spec '):
            parts = t.split(None, 2)
            specs[parts[1]] = parts[2]
        elif t.startswith('map '):
            maps += re.findall(r'map\s+"([^"]*)"\s*=>\s*"([^"]*)"', t)
        elif t.startswith('rewrite ') or t.startswith('subst '):
            rewrites.append(t)
        elif t.startswith('also '):
            parts = t.split(None, 2)
            also.append((parts[1], parts[2]))
        elif t:
            extra.append(t)
    if not kv.get('noemit'):
        _emit_type(asm, out, kind, {'file': kv['file'], 'name': tname}, maps, [], [])
    kwpos = re.search(r'\b%s\b' % kind, code)
    body = code[kwpos.start():]
    members = _fields_of(body) if kind == 'struct' else _variants_of(body)
    managed = []
    for name, ty in members:
        if not ty or not MANAGED_PAT.search(ty):
            continue
        if name in exempt:
            asm.assumptions.append('C01 exemption: %s.%s (%s) need not be traced: %s' % (tname, name, ty, exempt[name]))
            continue
        if kv.get('exempt_interned', '1') == '1' and re.fullmatch(r'Gc\s*<\s*ObjString\s*>', ty):
            asm.assumptions.append('C01 exemption: %s.%s is an interned string (rooted in the intern table for the interpreter\'s lifetime — C11 contract)' % (tname, name))
            continue
        managed.append((name, ty))
    for name in exempt:
        if name not in [n for n, _ in members]:
            raise ExtractError("exemption names %s.%s which no longer exists" % (tname, name))
    implname = kv.get('impl', 'GcManaged for %s' % tname)
    impl_it = src.find('<%s>' % implname, kind='impl') if False else None
    cands = [c for c in src.find_all(lambda c: c.kind == 'impl' and c.name.replace('memory::', '') == implname)]
    if len(cands) != 1:
        raise ExtractError("anchor lost: impl `%s` found %d times in %s" % (implname, len(cands), kv['file']))
    impl_item = cands[0]
    hdr = ' '.join(impl_item.header.split()).replace('memory::GcManaged', 'GcManaged').replace("'static + ", '').replace(" + ?Sized", '')
    out.append('// ---- trace contract for %s: requirements generated from the real %s definition (%s:%d)' % (tname, kind, kv['file'], src.line_of(it.start)))
    out.append(hdr + ' {')
    for mode in ('traced', 'shaded'):
        if kind == 'struct':
            conj = []
            for name, ty in managed:
                conj.append(_member_req(name, ty, specs, mode))
            expr = ' && '.join(conj) if conj else 'true'
            out.append('    open spec fn %s(&self) -> bool { %s }' % (mode, expr))
        else:
            arms = []
            for name, ty in members:
                if (name, ty) in managed:
                    arms.append('%s::%s(inner) => inner.%s(),' % (tname, name, mode))
            arms.append('_ => true,')
            out.append('    open spec fn %s(&self) -> bool { match self { %s } }' % (mode, ' '.join(arms)))
    props = kv.get('props', ','.join(default_props)).split(',')
    for meth, mode in (('mark', 'traced'), ('blacken', 'shaded')):
        blk = []
        for t in rewrites:
            blk.append(t)
        for name, ty in managed:
            if kind == 'struct':
                cl = _member_req(name, ty, specs, mode)
            else:
                cl = '(self is %s) ==> self.%s()' % (name, mode)
            blk.append('ensures @%s %s' % (name, cl))
        for (nm, ex) in also:
            blk.append('ensures @%s %s' % (nm, ex.replace('{m}', mode)))
        for t in extra:
            m_ = re.match(r'(mark|blacken|both):\s*(.*)', t)
            if not m_:
                raise ExtractError("unknown trace directive for %s: %s" % (tname, t))
            if m_.group(1) in (meth, 'both'):
                blk.append(m_.group(2).replace('{m}', mode))
        n_before = len(asm.obligations)
        kvt = {'file': kv['file'], 'path': '<%s>::%s' % (implname, meth), 'props': ','.join(props),
               'obname': '%s::%s' % (tname, meth), 'optional_rewrites': '1'}
        if kvt['obname'] in skip_fns:
            _emit_fn_stub(asm, out, unit, kvt, blk, default_props, skip_fns[kvt['obname']])
        else:
            mark = len(out)
            nob = len(asm.obligations)
            try:
                _emit_fn(asm, out, unit, kvt, blk, default_props)
            except ExtractError as e:
                del out[mark:]
                del asm.obligations[nob:]
                asm.fn_ranges = [r for r in asm.fn_ranges if r[0] <= mark]
                _emit_fn_stub(asm, out, unit, kvt, blk, default_props, 'extraction: %s' % e)
        for o in asm.obligations[n_before:]:
            mm = re.search(r'/@([\w.]+)$', o.name)
            if mm:
                o.name = '%s/%s::%s/%s' % (unit, tname, meth, mm.group(1))
                o.trace = {'type': tname, 'method': meth, 'member': mm.group(1)}
                o.text = '%s of %s covers %s: %s' % (meth, tname, mm.group(1), o.text)
    out.append('}')
    asm.trace_types = getattr(asm, 'trace_types', {})
    asm.trace_types[tname] = {'members': members, 'managed': managed}


def _ret_arrow(sig):
    """match object-like (start, rtype) for the `) -> T` that follows the parameter list (not an arrow inside a parameter type)"""
    i = sig.find('(')
    if i < 0:
        return None
    depth = 0
    k = i
    while k < len(sig):
        c = sig[k]
        if c == '(':
            depth += 1
        elif c == ')':
            depth -= 1
            if depth == 0:
                break
        k += 1
    m = re.match(r'\)\s*->\s*(.+)$', sig[k:], re.S)
    if not m:
        return None
    return k, m.group(1)


def _emit_fn_stub(asm, out, unit, kv, block, default_props, reason):
    """The function could not be brought into the verifier (lost anchor / unsupported construct). Emit its CONTRACT as an
    assumed external_body stub so that callers and the other functions are still checked; every obligation of this
    function is reported as undecided (never discharged, never refuted)."""
    fname = kv.get('obname', kv['path'])
    props = kv.get('props', ','.join(default_props)).split(',')
    requires, ensures = [], []
    sigsubs = []
    for t in block:
        if t.startswith('requires '):
            requires.append(t[9:].strip())
        elif t.startswith('ensures ') or t.startswith('ensures! '):
            e_ = t[9:].strip() if t.startswith('ensures! ') else t[8:].strip()
            m_ = re.match(r'@([\w.]+)\s+(.*)', e_)
            ensures.append((m_.group(1), m_.group(2)) if m_ else e_)
        elif t.startswith('sig '):
            m = re.match(r'sig\s+"((?:[^"\\]|\\.)*)"\s*=>\s*"((?:[^"\\]|\\.)*)"', t)
            sigsubs.append((m.group(1), m.group(2)))
    sig = None
    try:
        src = get_source(kv['file'])
        it = src.find(kv['path'], kind='fn')
        ft = rsx.FnText(src, it)
        sig = ft.sig
        body0 = ft.body
        for t in block:
            if t.startswith('rewrite '):
                for rule in t.split()[1:]:
                    if rule == 'R10':
                        sig, _b, _n = rw.apply(rule, sig, body0)
        for a, b in sigsubs:
            sig = sig.replace(a, b)
        ret = kv.get('ret')
        if ret:
            m = _ret_arrow(sig)
            if m:
                sig = sig[:m[0]] + ') -> (%s: %s)' % (ret, m[1].strip())
        asm.functions.append({'name': fname + ' (NOT verified: ' + reason[:120] + ')', 'file': kv['file'], 'line': ft.line, 'sha256': ft.sha, 'props': props})
    except ExtractError:
        sig = None
    k = 0
    for e in ensures:
        k += 1
        name = '%s/%s/@%s' % (unit, fname, e[0]) if isinstance(e, tuple) else '%s/%s/post#%d' % (unit, fname, k)
        o = Obligation(name, 'post', props, fname, e[1] if isinstance(e, tuple) else e)
        o.forced = ('undecided', reason)
        o.fnkey = fname
        asm.obligations.append(o)
    for t in block:
        m_ = re.match(r'assert\s+@([\w.]+)\s+(?:before_stmt|after_stmt)\s+"(?:[^"\\]|\\.)*"\s+(.*)', t) or re.match(r'assert\s+@([\w.]+)\s+at\s+body\.end\s+(.*)', t)
        if m_:
            oa = Obligation('%s/%s/assert@%s' % (unit, fname, m_.group(1)), 'assert', props, fname, m_.group(2))
            oa.forced = ('undecided', reason)
            oa.fnkey = fname
            asm.obligations.append(oa)
    ob = Obligation('%s/%s/body' % (unit, fname), 'body', props, fname, 'body not verified')
    ob.forced = ('undecided', reason)
    asm.obligations.append(ob)
    if sig is None:
        asm.hard_missing = getattr(asm, 'hard_missing', []) + ['%s: %s' % (fname, reason)]
        return
    out.append('    // ---- NOT VERIFIED (%s): contract assumed so that the rest of the unit is still checked' % reason.replace('\n', ' ')[:200])
    out.append('    #[verifier::external_body]')
    out.append('    ' + sig)
    if requires:
        out.append('        requires')
        for r in requires:
            out.append('            %s,' % r.rstrip(','))
    if ensures:
        out.append('        ensures')
        for e in ensures:
            out.append('            %s,' % (e[1] if isinstance(e, tuple) else e).rstrip(','))
    out.append('    { unimplemented!() }')


def _emit_fn(asm, out, unit, kv, block, default_props):
    src = get_source(kv['file'])
    it = src.find(kv['path'], kind='fn')
    ft = rsx.FnText(src, it)
    props = kv.get('props', ','.join(default_props)).split(',')
    fname = kv.get('obname', kv['path'])
    sig = ft.sig
    body = ft.body
    quals = ft.qualifiers()
    if 'unsafe' in quals.split():
        sig = 'unsafe ' + sig
    # a `common::NAME` constant the template does not know (a refactoring introduced it): extract it from common.rs like
    # `//@const` would and refer to it by its bare name (R11) — the function stays ingestible
    for cname_ in sorted(set(re.findall(r'\bcommon::(\w+)', _code_only(body)))):
        known_ = re.search(r'\bconst\s+%s\b|name=(?:common::)?%s\b' % (cname_, cname_), getattr(asm, 'template_text', '')) or \
            any(re.search(r'\bconst\s+%s\b' % cname_, l_) for l_ in out if isinstance(l_, str))
        if known_:
            continue
        try:
            csrc_ = get_source('yarel/src/common.rs')
            cit_ = csrc_.find(cname_, kind='const')
            ctxt_ = csrc_.text_of(cit_)
            cm_ = re.search(r'const\s+\w+\s*:\s*([^=]+)=\s*(.*);', _code_only(ctxt_), re.S)
            if cm_:
                cline_ = ('pub const %s: %s = %s;  // extracted common.rs:%d (named by %s, not by the template)'
                          % (cname_, cm_.group(1).strip(), _norm(cm_.group(2)).replace('common::', ''), csrc_.line_of(cit_.start), fname))
                # module level (the function may sit inside an impl block), and without shifting any line recorded so
                # far: emitted at the very end of the verus! block when the unit is complete
                if not hasattr(asm, '_late_consts'):
                    asm._late_consts = []
                asm._late_consts.append(cline_)
                asm.dropped.append('%s: constant common::%s extracted on demand' % (fname, cname_))
        except Exception:
            pass
    if re.search(r'\bcommon::\w+', _code_only(body)) and not any(t.startswith('rewrite ') and 'R11' in t.split() for t in block):
        block = list(block) + ['rewrite R11']
    # `OpCode::X as u8` in a unit whose template gives the cast a contract (`opcode_u8`): R21 is applied whether or not the
    # block asks for it — a bare enum cast is an unconstrained byte to Verus, so a clause about emitted opcodes would be
    # REFUTED on a body that merely moved the cast (a false alarm on a behaviour-preserving edit)
    if re.search(r'\bfn\s+opcode_u8\s*\(', getattr(asm, 'template_text', '')) and re.search(r'\bas\s+u8\b', _code_only(body)) and 'OpCode' in (sig + body) \
            and not any(t.startswith('rewrite ') and 'R21' in t.split() for t in block):
        block = list(block) + ['rewrite R21']
    # --- rewrites on signature+body
    requires, ensures, attrs = [], [], []
    loops = {}
    ats = []
    befores = []
    sigsubs = []
    named_asserts = []
    hintfree = set()
    hints_lost = []
    # normalisation applied to every extracted body: `loop { if !C { break; } … }` is `while C { … }`
    sig, body, n31 = rw.apply('R31', sig, body)
    if n31:
        asm.rewrites.append(('R31', fname, n31))
    for t in block:
        if t.startswith('skip_until '):
            # `skip_until "let (function, upvalues)" => "self.function_head();"`: only the statements FROM the first depth-1
            # occurrence of the anchor on are verified; what precedes it is replaced by the given stub statement.
            m = re.match(r'skip_until\s+"((?:[^"\\]|\\.)*)"\s*=>\s*"((?:[^"\\]|\\.)*)"', t)
            if not m:
                raise ExtractError("bad skip_until directive in %s: %s" % (fname, t))
            anchor_t, head_t = m.group(1).replace('\\"', '"'), m.group(2).replace('\\"', '"')
            mask_t = rsx.code_mask(body)
            pat_t = r'\s*'.join(re.escape(x) for x in re.findall(r'\w+|\S', anchor_t))
            cut = None
            for mm in re.finditer(pat_t, body):
                if not mask_t[mm.start()]:
                    continue
                depth_t = 0
                for kk in range(mm.start()):
                    if mask_t[kk]:
                        if body[kk] in '([{':
                            depth_t += 1
                        elif body[kk] in ')]}':
                            depth_t -= 1
                if depth_t == 1:
                    cut = mm.start()
                    break
            if cut is None:
                raise ExtractError("anchor lost: %s: skip_until %r not found at statement level" % (fname, anchor_t))
            n_dropped = body[:cut].count('\n')
            body = '{\n        ' + head_t + '\n        ' + body[cut:]
            asm.dropped.append('%s: only the statements from `%s` on are verified; the %d lines of the body before it are replaced by the stub statement `%s`'
                               % (fname, anchor_t, n_dropped, head_t))
            continue
        if t.startswith('truncate_at '):
            # `truncate_at "loop {" => "self.run_loop()"`: only the statements BEFORE the first depth-1 occurrence of the
            # anchor are verified; everything from there to the end of the body is replaced by the given tail expression
            # (a stub standing for the rest of the function). Stated in the evidence as an extraction drop.
            m = re.match(r'truncate_at\s+"((?:[^"\\]|\\.)*)"\s*=>\s*"((?:[^"\\]|\\.)*)"', t)
            if not m:
                raise ExtractError("bad truncate_at directive in %s: %s" % (fname, t))
            anchor_t, tail_t = m.group(1).replace('\\"', '"'), m.group(2).replace('\\"', '"')
            mask_t = rsx.code_mask(body)
            pat_t = r'\s*'.join(re.escape(x) for x in re.findall(r'\w+|\S', anchor_t))
            cut = None
            for mm in re.finditer(pat_t, body):
                if not mask_t[mm.start()]:
                    continue
                depth_t = 0
                for kk in range(mm.start()):
                    if mask_t[kk]:
                        if body[kk] in '([{':
                            depth_t += 1
                        elif body[kk] in ')]}':
                            depth_t -= 1
                if depth_t == 1:
                    cut = mm.start()
                    break
            if cut is None:
                raise ExtractError("anchor lost: %s: truncate_at %r not found at statement level" % (fname, anchor_t))
            n_dropped = body[cut:].count('\n')
            body = body[:cut] + tail_t + '\n    }'
            asm.dropped.append('%s: only the statements before `%s` are verified; the remaining %d lines of the body are replaced by the stub call `%s`'
                               % (fname, anchor_t, n_dropped, tail_t))
            continue
        if t.startswith('keep_arms '):
            # `keep_arms Value Boolean,ObjRange,None`: match arms whose pattern names another variant of the enum are dropped
            # (the enum stand-in collapses those variants into one, which then takes the wildcard arm). Stated as a drop.
            _, en_, kp_ = t.split()[:3]
            body, dv_, nd_ = filter_match_arms(body, en_, kp_.split(','))
            asm.dropped.append('%s: %d match arm(s) over variants of %s outside the kept set dropped (%s); such values take the wildcard arm'
                               % (fname, nd_, en_, ', '.join(dv_)))
            continue
        if t.startswith('rewrite '):
            for rule in t.split()[1:]:
                sig2, body2, n = rw.apply(rule, sig, body)
                if n == 0:
                    # a rule only makes a construct acceptable to Verus; nothing to rewrite is not an error
                    continue
                sig, body = sig2, body2
                asm.rewrites.append((rule, fname, n))
        elif t.startswith('subst '):
            m = re.match(r'subst\s+"((?:[^"\\]|\\.)*)"\s*=>\s*"((?:[^"\\]|\\.)*)"(\s+count=(\d+))?', t)
            if not m:
                raise ExtractError("bad subst directive in %s: %s" % (fname, t))
            a = m.group(1).replace('\\"', '"')
            b = m.group(2).replace('\\"', '"')
            pat = re.compile(r'\s*'.join(re.escape(x) for x in a.split()))   # whitespace-insensitive, otherwise literal
            n = len(pat.findall(body)) + len(pat.findall(sig))
            want = int(m.group(4)) if m.group(4) else None
            # a subst only makes a construct acceptable to Verus; if the site is gone there is nothing to rewrite
            # (a variant Verus cannot take then fails at verification time as 'undecided', never silently)
            body = pat.sub(lambda _m: b, body)
            sig = pat.sub(lambda _m: b, sig)
            asm.rewrites.append(('subst %r => %r' % (a, b), fname, n))
        elif t.startswith('substx '):
            # `substx "A $1 B $2 C" => "D $1 E $2"`: like subst, but `$n` stands for any bracket-balanced expression (so a
            # renamed local or a reshaped argument does not lose the site); whitespace-insensitive otherwise
            m = re.match(r'substx\s+"((?:[^"\\]|\\.)*)"\s*=>\s*"((?:[^"\\]|\\.)*)"', t)
            if not m:
                raise ExtractError("bad substx directive in %s: %s" % (fname, t))
            a = m.group(1).replace('\\"', '"')
            b = m.group(2).replace('\\"', '"')
            parts = re.split(r'(\$\d)', a)
            rx = ''
            order = []
            for part in parts:
                if re.fullmatch(r'\$\d', part):
                    rx += r'\s*(.+?)\s*'
                    order.append(part)
                else:
                    rx += r'\s*'.join(re.escape(x) for x in re.findall(r'\w+|\S', part))
            n = 0
            pos_ = 0
            while True:
                mx = re.compile(rx, re.S).search(body, pos_)
                if not mx:
                    break
                caps = {}
                ok_ = True
                for k_, name_ in enumerate(order):
                    c_ = mx.group(k_ + 1)
                    depth_ = 0
                    for ch_ in c_:
                        if ch_ in '([{':
                            depth_ += 1
                        elif ch_ in ')]}':
                            depth_ -= 1
                            if depth_ < 0:
                                ok_ = False
                    if depth_ != 0 or ';' in c_:
                        ok_ = False
                    caps[name_] = c_
                if not ok_:
                    pos_ = mx.start() + 1
                    continue
                rep = b
                for name_, c_ in caps.items():
                    rep = rep.replace(name_, c_)
                body = body[:mx.start()] + rep + body[mx.end():]
                pos_ = mx.start() + len(rep)
                n += 1
            asm.rewrites.append(('substx %r => %r' % (a, b), fname, n))
        elif t.startswith('wrap '):
            # `wrap "A(B(" => "C("`: every `A(B(E))` (whatever E is) becomes `C(E)` — for constructor nests such as
            # `Root::new(RefCell::new(E))` whose argument a refactoring may reshape
            m = re.match(r'wrap\s+"((?:[^"\\]|\\.)*)"\s*=>\s*"((?:[^"\\]|\\.)*)"', t)
            if not m:
                raise ExtractError("bad wrap directive in %s: %s" % (fname, t))
            a = m.group(1).replace('\\"', '"')
            b = m.group(2).replace('\\"', '"')
            depth_a = a.count('(')
            pat = re.compile(r'\s*'.join(re.escape(x) for x in re.findall(r'\w+|\S', a)))
            n = 0
            pos_ = 0
            while True:
                mw = pat.search(body, pos_)
                if not mw:
                    break
                # the innermost opening paren is the last char of the match
                op_ = mw.end() - 1
                cl_ = rsx.match_close(body, rsx.code_mask(body), op_, '(', ')')
                inner = body[op_ + 1:cl_]
                # skip the remaining closing parens of the outer constructors
                k_ = cl_ + 1
                ok_ = True
                for _ in range(depth_a - 1):
                    mm = re.match(r'\s*\)', body[k_:])
                    if not mm:
                        ok_ = False
                        break
                    k_ += mm.end()
                if not ok_:
                    pos_ = mw.end()
                    continue
                rep = b + inner + ')'
                body = body[:mw.start()] + rep + body[k_:]
                pos_ = mw.start() + len(rep)
                n += 1
            asm.rewrites.append(('wrap %r => %r' % (a, b), fname, n))
        elif t.startswith('requires '):
            requires.append(t[9:].strip())
        elif t.startswith('ensures ') or t.startswith('ensures! '):
            bang = t.startswith('ensures! ')
            e_ = t[9:].strip() if bang else t[8:].strip()
            m_ = re.match(r'@([\w.]+)\s+(.*)', e_)
            if m_:
                ensures.append((m_.group(1), m_.group(2)))
            else:
                ensures.append(e_)
            if bang:
                hintfree.add(len(ensures))
        elif t.startswith('attr '):
            attrs.append(t[5:].strip())
        elif t.startswith('loop '):
            m = re.match(r'loop\s+(\d+)\s+(iter|invariant|decreases|invariant_except_break|ensures)\s+(.*)', t)
            if not m:
                raise ExtractError("bad loop directive in %s: %s" % (fname, t))
            loops.setdefault(int(m.group(1)), []).append((m.group(2), m.group(3).strip()))
        elif t.startswith('at '):
            m = re.match(r'at\s+(\S+)\s+(.*)', t)
            ats.append((m.group(1), m.group(2)))
        elif t.startswith('assert '):
            m = re.match(r'assert\s+@([\w.]+)\s+(before_stmt|after_stmt)\s+"((?:[^"\\]|\\.)*)"\s+(.*)', t)
            if not m:
                # `assert @name at body.end <expr>`: a named obligation at the end of a unit-returning body
                m3 = re.match(r'assert\s+@([\w.]+)\s+at\s+body\.end\s+(.*)', t)
                if not m3:
                    raise ExtractError("bad assert directive in %s: %s" % (fname, t))
                named_asserts.append((m3.group(1), 'body.end', '', m3.group(2)))
                continue
            named_asserts.append((m.group(1), m.group(2), m.group(3).replace('\\"', '"'), m.group(4)))
        elif t.startswith('before_stmt ') or t.startswith('after_stmt '):
            m = re.match(r'(before_stmt|after_stmt)\s+"((?:[^"\\]|\\.)*)"\s+(.*)', t)
            befores.append((m.group(1), m.group(2).replace('\\"', '"'), m.group(3)))
        elif t.startswith('before ') or t.startswith('after '):
            m = re.match(r'(before|after)\s+"((?:[^"\\]|\\.)*)"\s+(.*)', t)
            befores.append((m.group(1), m.group(2).replace('\\"', '"'), m.group(3)))
        elif t.startswith('decreases '):
            attrs.append(('decreases', t[10:].strip()))
        elif t.startswith('sig '):
            m = re.match(r'sig\s+"((?:[^"\\]|\\.)*)"\s*=>\s*"((?:[^"\\]|\\.)*)"', t)
            sigsubs.append((m.group(1), m.group(2)))
        elif t.startswith('#') or not t:
            pass
        else:
            raise ExtractError("unknown directive in %s: %s" % (fname, t))
    for a, b in sigsubs:
        if a not in sig:
            raise ExtractError("signature anchor %r lost in %s" % (a, fname))
        sig = sig.replace(a, b)
        asm.rewrites.append(('sig %r => %r' % (a, b), fname, 1))
    # --- name the return value
    ret = kv.get('ret')
    if ret:
        m = _ret_arrow(sig)
        if not m:
            raise ExtractError("%s: no return type to name" % fname)
        rtype = m[1].strip()
        wh = ''
        mw = re.search(r'\bwhere\b', rtype)
        if mw:
            wh = ' ' + rtype[mw.start():]
            rtype = rtype[:mw.start()].strip()
        sig = sig[:m[0]] + ') -> (%s: %s)%s' % (ret, rtype, wh)
    # --- loops: insert specs between header and '{'
    lps = rsx.find_loops(body)
    inserts = []   # (pos, text)
    loop_obs = {}
    for n, specs in loops.items():
        if n >= len(lps):
            # the function no longer has that loop: its invariants are moot (nothing to be inductive about)
            asm.dropped.append('%s: contract clauses for loop %d skipped (the function has %d loop(s))' % (fname, n, len(lps)))
            continue
        kind, kwpos, ob, cb = lps[n]
        txt = ''
        inv_k = 0
        # `if_before "<text>" <clause>`: a clause about a local that is declared before the loop is kept only while
        # that declaration is still there (a refactoring that moves or drops the local must not leave the function
        # uningestible: without the clause the function is still verified, against the same postconditions)
        specs2 = []
        for k, x in specs:
            mb = re.match(r'if_before\s+"((?:[^"\\]|\\.)*)"\s+(.*)', x)
            if mb:
                if _norm(mb.group(1)) in _norm(body[:kwpos]):
                    specs2.append((k, mb.group(2)))
                else:
                    asm.dropped.append('%s: loop %d clause about `%s` skipped (no such statement before the loop)' % (fname, n, mb.group(1)))
            else:
                specs2.append((k, x))
        specs = specs2
        dec = [x for k, x in specs if k == 'decreases']
        for k, x in specs:
            if k == 'iter':
                if kind != 'for':
                    raise ExtractError("%s loop %d is no longer a for loop" % (fname, n))
                hdr = body[kwpos:ob]
                m = re.search(r'\bin\b\s*', hdr)
                inserts.append((kwpos + m.end(), '%s: ' % x))
        cur = None
        lines = []
        order = {'invariant_except_break': 0, 'invariant': 1, 'ensures': 2}
        specs = sorted(specs, key=lambda kx: order.get(kx[0], 9))   # stable: clause order within a group is kept
        for k, x in specs:
            if k in ('invariant', 'invariant_except_break', 'ensures'):
                if cur != k:
                    lines.append(('hdr', '        %s' % k))
                    cur = k
                inv_k += 1
                lines.append(('inv' if k != 'ensures' else 'lens', '            %s' % x.rstrip(',') + ','))
        if dec:
            lines.append(('hdr', '        decreases %s' % dec[0].rstrip(',') + ','))
        inserts.append((ob, ('\n', lines, n)))
    for where, text in ats:
        if where == 'body.start':
            inserts.append((1, '\n        ' + text + '\n'))
        elif where == 'body.end':
            inserts.append((len(body) - 1, '\n        ' + text + '\n'))
        elif where == 'body.tail':
            # just before the tail expression: after the last statement end (`;` or a block's `}`) at depth 1
            mask_t = rsx.code_mask(body)
            depth = 0
            last = 1
            for kk, ch in enumerate(body):
                if not mask_t[kk]:
                    continue
                if ch in '([{':
                    depth += 1
                elif ch in ')]}':
                    depth -= 1
                    if depth == 1 and ch == '}' and body[kk + 1:].strip() != '}':
                        # a block statement ended (only counts if something follows it, i.e. it is not the tail itself)
                        rest = body[kk + 1:].lstrip()
                        if not rest.startswith('else') and not rest.startswith('.') and not rest.startswith('?'):
                            last = kk + 1
                elif ch == ';' and depth == 1:
                    last = kk + 1
            inserts.append((last, '\n        ' + text + '\n'))
        else:
            m = re.match(r'loop(\d+)\.(start|end|before)', where)
            if not m:
                raise ExtractError("bad anchor %s" % where)
            n = int(m.group(1))
            if n >= len(lps):
                continue
            kind, kwpos, ob, cb = lps[n]
            if m.group(2) == 'before':
                inserts.append((kwpos, ' ' + text + '\n            '))
            else:
                inserts.append((ob + 1 if m.group(2) == 'start' else cb, '\n            ' + text + '\n'))
    for (aname, where, anchor, expr) in named_asserts:
        if where == 'body.end':
            inserts.append((len(body) - 1, ('named_assert', aname, expr)))
            continue
        befores.append((where, anchor, ('named_assert', aname, expr)))
    for ba, anchor, text in befores:
        if ba in ('before_stmt', 'after_stmt'):
            # anchor = the first words of a statement (robust against edits later in the statement)
            # `…#2`: the second statement that starts like this (for statements that legitimately occur more than once)
            occ = None
            every = False
            if anchor.endswith('#*'):
                # `…#*`: every statement that starts like this (e.g. a ghost update before EACH `return;`)
                anchor, every = anchor[:-2], True
            mo = re.match(r'^(.*)#(\d+)$', anchor, re.S)
            if mo:
                anchor, occ = mo.group(1), int(mo.group(2))
            pat = r'\s*'.join(re.escape(p) for p in re.findall(r'\w+|\S', anchor))
            ms = [m for m in re.finditer(pat, body)]
            mask_b = rsx.code_mask(body)
            ms = [m for m in ms if mask_b[m.start()]]
            if occ is not None:
                ms = [ms[occ - 1]] if 1 <= occ <= len(ms) else []
            if every and ba == 'before_stmt' and len(ms) >= 1 and not isinstance(text, tuple):
                for m_ in ms:
                    inserts.append((m_.start(), ' ' + text + ' '))
                continue
            if len(ms) != 1:
                if isinstance(text, tuple):
                    raise ExtractError("anchor lost: %s: statement starting %r occurs %d times" % (fname, anchor, len(ms)))
                # a proof HINT lost its anchor: skip it; refutations of hint-dependent clauses of this function are then
                # reported as undecided (a failed proof is not a violated contract)
                hints_lost.append(anchor)
                continue
            st = ms[0].start()
            if ba == 'before_stmt':
                inserts.append((st, text if isinstance(text, tuple) else ' ' + text + ' '))
                continue
            # find the end of the statement: `;` at depth 0, or the `}` closing a block statement (not followed by else)
            depth = 0
            k = st
            en = None
            blockish = re.match(r'(if|for|while|loop|match)\b', body[st:])
            while k < len(body):
                if mask_b[k]:
                    c = body[k]
                    if c in '([{':
                        depth += 1
                    elif c in ')]}':
                        depth -= 1
                        if depth < 0:
                            break
                        if depth == 0 and c == '}' and blockish:
                            rest = body[k + 1:].lstrip()
                            if not rest.startswith('else'):
                                en = k + 1
                                break
                    elif c == ';' and depth == 0:
                        en = k + 1
                        break
                k += 1
            if en is None:
                raise ExtractError("anchor lost: %s: cannot find the end of the statement starting %r" % (fname, anchor))
            inserts.append((en, text if isinstance(text, tuple) else ' ' + text + ' '))
            continue
        idxs = [m.start() for m in re.finditer(re.escape(anchor), body)]
        if len(idxs) != 1:
            # try whitespace-normalised match
            pat = r'\s+'.join(re.escape(p) for p in anchor.split())
            idxs = [(m.start(), m.end()) for m in re.finditer(pat, body)]
            if len(idxs) != 1:
                raise ExtractError("anchor lost: %s: statement %r occurs %d times" % (fname, anchor, len(idxs)))
            st, en = idxs[0]
        else:
            st, en = idxs[0], idxs[0] + len(anchor)
        inserts.append((st if ba == 'before' else en, ' ' + text + ' '))
    # apply inserts from the back; loop-spec inserts are structured so we can name obligations
    inserts.sort(key=lambda x: x[0], reverse=True)
    # We build the final text and then compute line numbers of the clause lines by unique markers.
    markers = {}
    mk = [0]

    def marker(obname):
        mk[0] += 1
        tag = '/*@OB%d@*/' % mk[0]
        markers[tag] = obname
        return tag

    obs_local = []
    for pos, ins in inserts:
        if isinstance(ins, tuple) and ins[0] == 'named_assert':
            _, aname, expr = ins
            oname = '%s/%s/assert@%s' % (unit, fname, aname)
            o = Obligation(oname, 'assert', props, fname, expr)
            obs_local.append(o)
            body = body[:pos] + ' proof { assert(%s); } %s\n' % (expr, marker(oname)) + body[pos:]
            continue
        if isinstance(ins, tuple):
            _, lines, n = ins
            txt = '\n'
            k = 0
            for kind_, l in lines:
                if kind_ in ('inv', 'lens'):
                    k += 1
                    name = '%s/%s/inv%d#%d' % (unit, fname, n, k)
                    o = Obligation(name, 'inv', props, fname, l.strip())
                    obs_local.append(o)
                    txt += l + ' ' + marker(name) + '\n'
                else:
                    txt += l + '\n'
            body = body[:pos] + txt + '    ' + body[pos:]
        else:
            # proof hints of the template are bracketed so that a failure INSIDE a hint (a lemma's precondition, a
            # helper assertion) can be told apart from a failed clause of the contract: it is a failed proof, not a
            # violated contract
            body = body[:pos] + '/*@H<*/' + ins + '/*>H@*/' + body[pos:]
    # --- header clauses
    hdr_lines = []
    for a in attrs:
        if isinstance(a, str):
            out.append('    ' + a)
    hdr_lines.append(sig)
    if requires:
        hdr_lines.append('        requires')
        for r in requires:
            hdr_lines.append('            %s,' % r.rstrip(','))
    if ensures:
        hdr_lines.append('        ensures')
        for k, e in enumerate(ensures, 1):
            if isinstance(e, tuple):
                name = '%s/%s/@%s' % (unit, fname, e[0])
                e = e[1]
            else:
                name = '%s/%s/post#%d' % (unit, fname, k)
            o = Obligation(name, 'post', props, fname, e)
            o.hintfree = k in hintfree
            obs_local.append(o)
            hdr_lines.append('            %s, %s' % (e.rstrip(','), marker(name)))
    # vacuity probe slot: the vacuity run turns this comment into an extra `ensures false` clause, which MUST be refuted
    if ensures:
        hdr_lines.append('            /*@VACUITY@*/')
    else:
        hdr_lines.append('        /*@VACUITY-ENSURES@*/')
    for a in attrs:
        if isinstance(a, tuple) and a[0] == 'decreases':
            hdr_lines.append('        decreases %s,' % a[1].rstrip(','))
    body_ob = Obligation('%s/%s/body' % (unit, fname), 'body', props, fname,
                         'no overflow / out-of-bounds / unwrap-of-None / callee precondition / termination failure in the body')
    obs_local.append(body_ob)
    first = len(out) + 1
    out.append('    // ---- extracted verbatim from %s:%d (%s) sha256=%s' % (kv['file'], ft.line, fname, ft.sha[:16]))
    full = '\n'.join(hdr_lines) + '\n    ' + body
    for l in full.split('\n'):
        for tag, name in markers.items():
            if tag in l:
                for o in obs_local:
                    if o.name == name:
                        o.lines.append(len(out) + 1)
                l = l.replace(tag, '')
        out.append(l.rstrip())
    last = len(out)
    asm.fn_ranges.append((first, last, fname, body_ob))
    for o in obs_local:
        o.hints_lost = list(hints_lost)
    if hints_lost:
        asm.dropped.append('%s: proof hint(s) skipped, anchor lost: %s' % (fname, '; '.join(hints_lost)))
    asm.obligations.extend(obs_local)
    # Verus function key (for the function-breakdown in --output-json)
    simple = fname.split('::')[-1]
    body_ob.fnkey = simple
    for o in obs_local:
        o.fnkey = simple
    asm.functions.append({'name': fname, 'file': kv['file'], 'line': ft.line, 'sha256': ft.sha, 'props': props})
    if quals and quals not in ('', 'unsafe'):
        asm.dropped.append('%s: visibility qualifier `%s` dropped' % (fname, quals))


# ----------------------------------------------------------------------------------------- running

REFUTE_PAT = re.compile(
    r'postcondition not satisfied|invariant not satisfied|precondition not satisfied|assertion failed|'
    r'possible arithmetic (underflow/)?overflow|possible division by zero|decreases not satisfied|could not prove termination|'
    r'possible bit shift underflow/overflow|loop must have a decreases|'
    r'unwrap|index out of bounds|could not show termination|assertion not satisfied|recommendation not met', re.I)
RLIMIT_PAT = re.compile(r'resource limit|rlimit|timed out|timeout|out of memory', re.I)


def run_verus(path, rlimit=None, extra=None, timeout=900):
    cmd = ['verus', path, '--output-json', '--time', '--error-format=json', '--multiple-errors', '8']
    if rlimit:
        cmd += ['--rlimit', str(rlimit)]
    if extra:
        cmd += extra
    t0 = time.time()
    try:
        p = subprocess.run(cmd, stdout=subprocess.PIPE, stderr=subprocess.PIPE, text=True, timeout=timeout,
                           cwd=os.path.dirname(path))
        rc, so, se = p.returncode, p.stdout, p.stderr
    except subprocess.TimeoutExpired as e:
        rc, so, se = -9, (e.stdout or b'').decode() if isinstance(e.stdout, bytes) else (e.stdout or ''), 'TIMEOUT'
    dt = time.time() - t0
    try:
        js = json.loads(so)
    except Exception:
        js = None
    diags = []
    for l in se.split('\n'):
        l = l.strip()
        if l.startswith('{'):
            try:
                diags.append(json.loads(l))
            except Exception:
                pass
    return {'rc': rc, 'json': js, 'diags': diags, 'stderr': se, 'wall_s': dt, 'cmd': ' '.join(cmd)}


def classify(asm, res, canary_name):
    """Set status on every obligation. Returns (hard_error_text or None)."""
    js = res['json']
    hard = None
    if js is None:
        return 'verus produced no JSON (rc=%s): %s' % (res['rc'], res['stderr'][-800:])
    vr = js.get('verification-results', {})
    errors = [d for d in res['diags'] if d.get('level') == 'error' and not d.get('message', '').startswith('aborting due to')]
    # per-function success from the breakdown
    fb = {}
    for mod in js.get('times-ms', {}).get('smt', {}).get('smt-run-module-times', []):
        for f in mod.get('function-breakdown', []):
            fb[f['function']] = f
    for o in asm.obligations:
        o.status = 'discharged'
    canary_failed = False
    res['hard_fns'] = {}
    for d in errors:
        msg = d.get('message', '')
        spans = d.get('spans', [])
        # a span inside a macro of another file (e.g. core's `assert!` behind `debug_assert!`): use the call site in
        # the assembled file, found through the expansion chain — line numbers of other files mean nothing here
        def _own(sp_):
            seen_ = 0
            while sp_ is not None and seen_ < 12:
                fn_ = sp_.get('file_name') or ''
                # (vstd's own files are reported with a path relative to vstd, e.g. `std_specs/option.rs`)
                if fn_.startswith('/') and not (fn_.startswith('/rustc/') or '/library/' in fn_ or 'vstd' in fn_):
                    return sp_
                sp_ = (sp_.get('expansion') or {}).get('span')
                seen_ += 1
            return None
        spans2 = []
        for sp in spans:
            o_ = _own(sp)
            if o_ is not None:
                o2_ = dict(o_)
                o2_['is_primary'] = sp.get('is_primary')
                if 'text' not in o2_:
                    o2_['text'] = sp.get('text')
                spans2.append(o2_)
        spans = spans2
        lines = set()
        for sp in spans:
            for l in range(sp['line_start'], sp['line_end'] + 1):
                lines.add(l)
        prim = [sp for sp in spans if sp.get('is_primary')]
        plines = set()
        for sp in prim:
            for l in range(sp['line_start'], sp['line_end'] + 1):
                plines.add(l)
        rendered = d.get('rendered', msg)
        if canary_name and any(canary_name in (sp.get('text') or [{}])[0].get('text', '') for sp in spans) or \
                (canary_name and canary_name in rendered):
            canary_failed = True
            continue
        is_ver = bool(REFUTE_PAT.search(msg))
        is_rl = bool(RLIMIT_PAT.search(msg))
        if not is_ver and not is_rl:
            # compile / mode / unsupported-construct error: if it lies inside an extracted function, that function can
            # be retried as an assumed stub (hard_fns); otherwise the whole unit is undecided
            for (a_, b_, fname_, body_ob_) in asm.fn_ranges:
                if any(a_ <= l <= b_ for l in (plines or lines)):
                    res['hard_fns'][fname_] = msg[:200]
                    break
            hard = (hard or '') + rendered[:1200] + '\n'
            continue
        # a failure whose primary location lies inside a bracketed proof hint of the template: undecided, never refuted
        in_hint = False
        try:
            if prim:
                if not hasattr(asm, '_hint_regions'):
                    asm._line_off = [0]
                    for l_ in asm.text.split('\n'):
                        asm._line_off.append(asm._line_off[-1] + len(l_) + 1)
                    asm._hint_regions = [(m_.start(), m_.end()) for m_ in re.finditer(r'/\*@H<\*/.*?/\*>H@\*/', asm.text, re.S)]
                sp0 = prim[0]
                off = asm._line_off[sp0['line_start'] - 1] + max(0, sp0.get('column_start', 1) - 1)
                in_hint = any(a_ <= off < b_ for (a_, b_) in asm._hint_regions)
        except Exception:
            in_hint = False
        hit = [o for o in asm.obligations if o.lines and (set(o.lines) & plines)]
        if not hit:
            hit = [o for o in asm.obligations if o.lines and (set(o.lines) & lines)]
        if not hit:
            # attribute to the body obligation of the enclosing extracted function, else to a lemma
            for cand in (plines, lines):
                for (a, b, fname, body_ob) in asm.fn_ranges:
                    if any(a <= l <= b for l in cand):
                        hit = [body_ob]
                        break
                if hit:
                    break
        if not hit:
            # hand-written lemma / spec: find a lemma obligation whose fn name appears in the spans
            for o in asm.obligations:
                if o.kind == 'lemma' and (o.fn in rendered):
                    hit = [o]
                    break
        if not hit:
            hard = (hard or '') + 'unattributed verifier error: ' + rendered[:1200] + '\n'
            continue
        for o in hit:
            if is_rl or in_hint:
                if o.status != 'refuted':
                    o.status = 'undecided'
                if in_hint:
                    o.detail += 'a PROOF HINT of the template failed (a lemma precondition or helper assertion inside an inserted proof block), not a clause of the contract: undecided\n'
            else:
                o.status = 'refuted'
            o.detail += rendered[:3000] + '\n'
    for o in asm.obligations:
        if o.status == 'refuted' and getattr(o, 'hints_lost', None) and not getattr(o, 'hintfree', False):
            o.status = 'undecided'
            o.detail = ('not discharged, but proof hint(s) of this function lost their anchor (%s): a failed proof is not a '
                        'violated contract\n' % '; '.join(o.hints_lost)) + o.detail
    for o in asm.obligations:
        if getattr(o, 'forced', None):
            o.status = o.forced[0]
            o.detail = 'not verified: ' + o.forced[1]
    res['canary_failed'] = canary_failed
    res['verified'] = vr.get('verified')
    res['errors'] = vr.get('errors')
    res['fn_breakdown'] = fb
    return hard


def _fn_probe_lines(asm):
    """[(line_index, fnname, kind)] of the vacuity slots of every extracted function."""
    lines = asm.text.split('\n')
    out = []
    for n, l in enumerate(lines):
        if '/*@VACUITY@*/' in l or '/*@VACUITY-ENSURES@*/' in l:
            for (a, b, fname, body_ob) in asm.fn_ranges:
                if a <= n + 1 <= b:
                    out.append((n, fname))
    return lines, out


def _call_layers(asm, lines, probes):
    """Greedy colouring of the (textual) call graph between extracted functions: a function and the functions it calls
    never share a layer, so an `ensures false` probe on one layer is not discharged by a probed callee's contract."""
    names = {}
    for (a, b, fname, body_ob) in asm.fn_ranges:
        names[fname] = (a, b, fname.split('::')[-1].split('>')[-1])
    simple = {}
    for f, (a, b, sn) in names.items():
        simple.setdefault(sn, []).append(f)
    calls = {f: set() for f in names}
    for f, (a, b, sn) in names.items():
        body = '\n'.join(lines[a - 1:b])
        for sn2, fs in simple.items():
            if re.search(r'\b%s\s*\(' % re.escape(sn2), body):
                for g in fs:
                    if g != f:
                        calls[f].add(g)
    adj = {f: set() for f in names}
    for f, cs in calls.items():
        for g in cs:
            adj[f].add(g)
            adj[g].add(f)
    colour = {}
    for f in sorted(names, key=lambda x: -len(adj[x])):
        used = {colour[g] for g in adj[f] if g in colour}
        c = 0
        while c in used:
            c += 1
        colour[f] = c
    nl = (max(colour.values()) + 1) if colour else 0
    return [[f for f in names if colour[f] == c] for c in range(nl)]


def run_vacuity(asm, path, exits=True):
    """Vacuity probes. (1) entry probe: `assert(false)` as the first statement of every extracted function must fail
    (contradictory preconditions / globally active axioms). (2) exit probes (exits=True): an extra `ensures false` must be
    refuted for every extracted function; done in layers of the call graph so that a probed callee does not hand `false`
    to its caller. Returns (vacuous function names, seconds, sane)."""
    lines, probes = _fn_probe_lines(asm)
    vacuous = []
    secs = 0.0
    sane = True

    def refuted_lines_of(res):
        rl = set()
        for d in res['diags']:
            if d.get('level') != 'error':
                continue
            for sp in d.get('spans', []):
                for l in range(sp['line_start'], sp['line_end'] + 1):
                    rl.add(l)
        return rl

    # (1) entry probes: put the assertion right after the opening brace of the body, found from the probe slot
    l1 = list(lines)
    entry = {}
    for n, fname in probes:
        k = n
        while k < len(l1) and not l1[k].lstrip().startswith('{'):
            k += 1
        if k < len(l1):
            l1[k] = l1[k].replace('{', '{ proof { assert(false); } ', 1)
            entry[k + 1] = fname
    p1 = path[:-3] + '_vacuity0.rs'
    open(p1, 'w').write('\n'.join(l1).replace('/*@VACUITY@*/', '').replace('/*@VACUITY-ENSURES@*/', ''))
    r1 = run_verus(p1, rlimit=20)
    secs += r1['wall_s']
    rl = refuted_lines_of(r1)
    vr = (r1['json'] or {}).get('verification-results', {})
    if not r1['json'] or vr.get('encountered-vir-error') or not rl:
        return [], secs, False, (r1['stderr'] or '')[-300:]
    vacuous += ['%s (entry)' % f for l, f in entry.items() if l not in rl]
    if exits:
        for li, layer in enumerate(_call_layers(asm, lines, probes)):
            l2 = list(lines)
            pr = {}
            for n, fname in probes:
                if fname in layer:
                    l2[n] = l2[n].replace('/*@VACUITY@*/', 'false,').replace('/*@VACUITY-ENSURES@*/', 'ensures false,')
                    pr[n + 1] = fname
            p2 = path[:-3] + '_vacuity%d.rs' % (li + 1)
            open(p2, 'w').write('\n'.join(l2).replace('/*@VACUITY@*/', '').replace('/*@VACUITY-ENSURES@*/', ''))
            r2 = run_verus(p2, rlimit=20)
            secs += r2['wall_s']
            rl2 = refuted_lines_of(r2)
            vr2 = (r2['json'] or {}).get('verification-results', {})
            if not r2['json'] or vr2.get('encountered-vir-error') or not rl2:
                return [], secs, False, (r2['stderr'] or '')[-300:]
            vacuous += ['%s (exit)' % f for l, f in pr.items() if l not in rl2]
    return vacuous, secs, True, ''
